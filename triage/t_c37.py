"""C37.R1 repro on the real llamactl ConfigManager/EnvService code (sqlite in a temp dir).

History: default env has a profile "work"; user adds env B, creates + selects a profile "work" there,
then deletes env B (the current one).  The environment falls back to the default and the *default*
environment's "work" profile is active although it was never selected while that environment was current.
"""
import os, sys, tempfile, types
sys.dont_write_bytecode = True
d = tempfile.mkdtemp()
os.environ["LLAMACTL_CONFIG_DIR"] = d
# bare namespace packages: skip llama_agents/cli/__init__.py (imports click commands, dulwich, ...)
S = "/repo/packages/llamactl/src/llama_agents"
for name, path in (("llama_agents", S), ("llama_agents.cli", S + "/cli"), ("llama_agents.cli.config", S + "/cli/config")):
    m = types.ModuleType(name); m.__path__ = [path]; sys.modules[name] = m
from llama_agents.cli.config._config import ConfigManager
from llama_agents.cli.config.schema import DEFAULT_ENVIRONMENT

cm = ConfigManager()
DEF = DEFAULT_ENVIRONMENT.api_url
B = "https://b.example"
# profile "work" exists in the default environment but was never selected (pointer is empty)
cm.create_profile("work", DEF, "proj-default")
assert cm.get_current_profile(cm.get_current_environment().api_url) is None
# EnvService.create_or_update_environment(B)  (same three calls as the service makes)
cm.create_or_update_environment(B, False)
cm.set_settings_current_environment(B)
cm.set_settings_current_profile(None)
# AuthService(cm, env B).create_profile_from_token -> create + select "work" in B
cm.create_profile("work", B, "proj-b")
cm.set_settings_current_profile("work")
print("before delete: env =", cm.get_current_environment().api_url, " active =", cm.get_current_profile(B))
# EnvService.delete_environment(B)
cm.delete_environment(B)
env = cm.get_current_environment().api_url
act = cm.get_current_profile(env)
print("after  delete: env =", env, " active =", act)
print("C37 VIOLATED" if act is not None else "C37 ok", "- active profile of the default environment was never selected there" if act else "")
