"""Triage aid for C22: interleavings against the pinned ResourceManager and against candidate repairs.
usage: python t_c22.py [path/to/resource.py ...]   (default: the pinned file).  Nothing in /repo is modified; each file is
exec'd as a stand-alone module (resource.py only needs pydantic)."""
import asyncio, sys, types
from typing import Annotated

PINNED = "/repo/packages/llama-index-workflows/src/workflows/resource.py"


def load(path):
    mod = types.ModuleType("resource_variant")
    mod.__dict__["__name__"] = "resource_variant"
    sys.modules["resource_variant"] = mod
    exec(compile(open(path).read(), path, "exec"), mod.__dict__)
    return mod


async def scenarios(R):
    out = {}
    # S1: two step tasks resolve the same cached async resource at the same time
    made = []
    async def fac():
        made.append(1); await asyncio.sleep(0.02); return object()
    r = R.Resource(fac, cache=True); rm = R.ResourceManager()
    async def step(rm, *rs, hold=0.0):
        with rm.resolution_scope():
            vals = [await rm.get(x) for x in rs]
            await asyncio.sleep(hold)
            return vals
    res = await asyncio.gather(step(rm, r), step(rm, r), return_exceptions=True)
    same = len(res) == 2 and not any(isinstance(x, BaseException) for x in res) and res[0][0] is res[1][0]
    out["S1 concurrent cached"] = f"results={[type(x).__name__ if isinstance(x, BaseException) else 'ok' for x in res]} factory_calls={len(made)} same_object={same}"
    # S2: a non-cached resource must be fresh per step invocation, also when two invocations overlap
    made2 = []
    def fac2():
        made2.append(1); return object()
    async def slow():
        await asyncio.sleep(0.05); return 1
    nc = R.Resource(fac2, cache=False); sl = R.Resource(slow, cache=False); rm = R.ResourceManager()
    async def late(rm):
        await asyncio.sleep(0.01)
        return await step(rm, nc)
    a, b = await asyncio.gather(step(rm, nc, sl), late(rm), return_exceptions=True)
    out["S2 overlapping steps, non-cached"] = (f"{type(a).__name__ if isinstance(a, BaseException) else 'ok'}/{type(b).__name__ if isinstance(b, BaseException) else 'ok'} "
                                              f"factory_calls={len(made2)} shared_between_steps={not isinstance(a, BaseException) and not isinstance(b, BaseException) and a[0] is b[0]}")
    # S3: different cached resources with a common dependency, resolved by overlapping steps (false cycle through the shared chain)
    async def dep():
        await asyncio.sleep(0.02); return "dep"
    d = R.Resource(dep, cache=True)
    async def fa(x: Annotated[str, d]):
        return "a" + x
    async def fb(x: Annotated[str, d]):
        return "b" + x
    ra, rb = R.Resource(fa, cache=True), R.Resource(fb, cache=True); rm = R.ResourceManager()
    res = await asyncio.gather(step(rm, ra), step(rm, rb), return_exceptions=True)
    out["S3 common dependency"] = str([repr(x)[:70] for x in res])
    # S4: a genuine cycle is reported
    holder = {}
    async def c1(x: Annotated[str, "placeholder"]):
        return 1
    def mk():
        async def f1(x):
            return 1
        async def f2(x):
            return 2
        r1 = R.Resource(f1, cache=True); r2 = R.Resource(f2, cache=True)
        r1.get_dependencies = lambda: [("x", r2, None)]
        r2.get_dependencies = lambda: [("x", r1, None)]
        return r1, r2
    r1, r2 = mk(); rm = R.ResourceManager()
    try:
        await asyncio.wait_for(rm.get(r1), 1)
        out["S4 genuine cycle (one task)"] = "NOT REPORTED"
    except ValueError as e:
        out["S4 genuine cycle (one task)"] = "ValueError: " + str(e)[:60]
    except Exception as e:
        out["S4 genuine cycle (one task)"] = repr(e)[:80]
    # S5: a failing factory must not leave its name on the chain
    n = []
    async def flaky():
        n.append(1)
        if len(n) == 1:
            raise RuntimeError("boom")
        return "ok"
    fl = R.Resource(flaky, cache=True); rm = R.ResourceManager()
    first = await asyncio.gather(step(rm, fl), return_exceptions=True)
    second = await asyncio.gather(step(rm, fl), return_exceptions=True)
    out["S5 retry after factory error"] = f"{first[0]!r:.40} then {second[0]!r:.60}"
    # S6: genuine cycle entered from both ends by two tasks
    r1, r2 = mk(); rm = R.ResourceManager()
    async def slowdeps(r, other):
        orig = r.get_dependencies
        return orig
    try:
        res = await asyncio.wait_for(asyncio.gather(step(rm, r1), step(rm, r2), return_exceptions=True), 1)
        out["S6 genuine cycle (two tasks)"] = str([repr(x)[:50] for x in res])
    except asyncio.TimeoutError:
        out["S6 genuine cycle (two tasks)"] = "DEADLOCK (timeout)"
    # S7: genuine cycle entered from both ends while each task is suspended in another dependency
    async def slow1():
        await asyncio.sleep(0.02); return 1
    async def slow2():
        await asyncio.sleep(0.02); return 2
    s1, s2 = R.Resource(slow1, cache=False), R.Resource(slow2, cache=False)
    r1, r2 = mk(); rm = R.ResourceManager()
    r1.get_dependencies = lambda: [("y", s1, None), ("x", r2, None)]
    r2.get_dependencies = lambda: [("y", s2, None), ("x", r1, None)]
    r1._factory = r2._factory = None
    async def f(x=None, y=None):
        return 0
    r1._factory = r2._factory = f
    try:
        res = await asyncio.wait_for(asyncio.gather(step(rm, r1), step(rm, r2), return_exceptions=True), 1)
        out["S7 cycle entered from both ends"] = str([repr(x)[:50] for x in res])
    except asyncio.TimeoutError:
        out["S7 cycle entered from both ends"] = "DEADLOCK (timeout): the cycle is not reported"
    return out


for path in (sys.argv[1:] or [PINNED]):
    print("==", path)
    R = load(path)
    for k, v in asyncio.run(scenarios(R)).items():
        print(f"  {k:38s} {v}")
