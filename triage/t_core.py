import boot  # noqa
import asyncio, time, json
from workflows import Workflow, step, Context
from workflows.events import *
import workflows.retry_policy as rp
from workflows.decorators import catch_error

async def collect(handler, timeout=3.0):
    evs=[]
    async def _c():
        async for ev in handler.stream_events(expose_internal=True):
            evs.append(ev)
    t = asyncio.create_task(_c())
    try:
        await asyncio.wait_for(asyncio.shield(t), timeout)
        return evs, True
    except asyncio.TimeoutError:
        t.cancel()
        return evs, False

# ---- C03: idle while retry pending
async def c03():
    n=[0]
    class W(Workflow):
        @step(retry_policy=rp.retry_policy(wait=rp.wait_fixed(0.3), stop=rp.stop_after_attempt(3)))
        async def s(self, ev: StartEvent) -> StopEvent:
            n[0]+=1
            if n[0]<2: raise ValueError("x")
            return StopEvent(result=n[0])
    h = W(timeout=5).run()
    evs, done = await collect(h)
    print("C03 events:", [type(e).__name__ for e in evs if not isinstance(e, StepStateChanged)], "result", await h)

# ---- C04: retry predicate raising
async def c04():
    def bad(e): raise RuntimeError("predicate boom")
    class W(Workflow):
        @step(retry_policy=rp.retry_policy(retry=rp.retry_if_exception(bad), wait=rp.wait_fixed(0), stop=rp.stop_after_attempt(3)))
        async def s(self, ev: StartEvent) -> StopEvent:
            raise ValueError("x")
    h = W(timeout=5).run()
    evs, done = await collect(h, 2.0)
    try:
        r = await asyncio.wait_for(h, 2)
    except Exception as e:
        r = repr(e)
    print("C04 stream terminated:", done, "events:", [type(e).__name__ for e in evs if not isinstance(e, StepStateChanged)], "outcome", r)

# ---- C06: first retry delay with wait_chain
async def c06():
    ts=[]
    class W(Workflow):
        @step(retry_policy=rp.retry_policy(wait=rp.wait_chain(rp.wait_fixed(0.0), rp.wait_fixed(0.5), rp.wait_fixed(0.0)), stop=rp.stop_after_attempt(4)))
        async def s(self, ev: StartEvent) -> StopEvent:
            ts.append(time.monotonic())
            if len(ts)<4: raise ValueError("x")
            return StopEvent(result=1)
    await W(timeout=10).run()
    print("C06 gaps:", [round(b-a,2) for a,b in zip(ts,ts[1:])], "(expected by chain order: 0.0, 0.5, 0.0)")

# ---- C08: disable_validation routing
async def c08():
    for dv in (False, True):
        class W(Workflow):
            @step
            async def s(self, ev: StartEvent) -> StopEvent:
                raise ValueError("x")
            @catch_error
            async def h(self, ev: StepFailedEvent) -> StopEvent:
                return StopEvent(result="recovered")
        try:
            r = await W(timeout=5, disable_validation=dv).run()
        except Exception as e:
            r = repr(e)
        print("C08 disable_validation=%s ->"%dv, r)

class Resp(Event):
    v: int = 0
# ---- C10: duplicate matching events
async def c10():
    completions=[]
    class W(Workflow):
        @step
        async def s(self, ctx: Context, ev: StartEvent) -> StopEvent | None:
            r = await ctx.wait_for_event(Resp, waiter_id="w1", timeout=None)
            await asyncio.sleep(0.2)
            completions.append(r.v)
            if len(completions) >= 2:
                return StopEvent(result=list(completions))
            return None
    h = W(timeout=3).run()
    await asyncio.sleep(0.1)
    h.ctx.send_event(Resp(v=1))
    h.ctx.send_event(Resp(v=2))
    try:
        r = await h
    except Exception as e:
        r = repr(e)
    print("C10 completions of one wait:", completions, r)

# ---- C12: in-progress retry count lost
async def c12():
    calls=[]
    gate = asyncio.Event()
    class W(Workflow):
        @step(retry_policy=rp.retry_policy(wait=rp.wait_fixed(0), stop=rp.stop_after_attempt(3)))
        async def s(self, ctx: Context, ev: StartEvent) -> StopEvent:
            calls.append(ctx.retry_info().retry_number)
            if len(calls)==2:
                await asyncio.sleep(0.3)  # snapshot taken while 2nd attempt in progress
            raise ValueError("x")
    w = W(timeout=5)
    h = w.run()
    await asyncio.sleep(0.15)
    d = h.ctx.to_dict()
    print("C12 snapshot in_progress:", {k:(v['in_progress'], v['queue']) for k,v in d['workers'].items()})
    try: await h
    except Exception as e: pass
    n_before=len(calls)
    ctx2 = Context.from_dict(w, json.loads(json.dumps(d)))
    h2 = w.run(ctx=ctx2)
    try: await h2
    except Exception as e: pass
    print("C12 uninterrupted attempts:", n_before, "retry numbers", calls[:n_before], "| after resume extra attempts:", calls[n_before:])

asyncio.run(c03()); asyncio.run(c04()); asyncio.run(c06()); asyncio.run(c08()); asyncio.run(c10()); asyncio.run(c12())
