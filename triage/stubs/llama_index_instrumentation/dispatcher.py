import functools, asyncio
from contextlib import contextmanager
from contextvars import ContextVar
active_instrument_tags = ContextVar("tags", default={})
@contextmanager
def instrument_tags(tags):
    tok = active_instrument_tags.set(tags)
    try: yield
    finally: active_instrument_tags.reset(tok)
class Dispatcher:
    def event(self, ev): pass
    def span(self, fn):
        return fn
    def span_enter(self, **kw): pass
    def span_exit(self, **kw): pass
    def span_drop(self, **kw): pass
    def capture_propagation_context(self): return {}
    def restore_propagation_context(self, tags): pass
_d = Dispatcher()
def get_dispatcher(name=None): return _d
