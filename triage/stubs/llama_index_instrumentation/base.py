from pydantic import BaseModel
class BaseEvent(BaseModel):
    @classmethod
    def class_name(cls): return cls.__name__
