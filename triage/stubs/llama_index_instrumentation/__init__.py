from .dispatcher import get_dispatcher, Dispatcher  # noqa
