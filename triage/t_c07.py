import boot
import workflows.retry_policy as rp
for name, w in [("exp", rp.wait_exponential(1,2,60)), ("jit", rp.wait_exponential_jitter(1,2,60,1)), ("rexp", rp.wait_random_exponential(1,2,60)), ("inc", rp.wait_incrementing(1,2,10)), ("chain", rp.wait_chain(rp.wait_fixed(1)))]:
    for a in (0, 1, 10, 1023, 1024, 5000):
        try:
            v = w(a, seed=1)
            assert 0 <= v <= 61, v
        except Exception as e:
            print(name, a, "->", repr(e)); break
    else:
        print(name, "ok")
print(rp.wait_random(1,2)(0, seed=3) == rp.wait_random(1,2)(0, seed=3), rp.wait_combine(rp.wait_random(0,1), rp.wait_random(0,1))(0, seed=5))
s = rp.wait_fixed(1)+rp.wait_fixed(2); print("sum", s(0), sum([rp.wait_fixed(1), rp.wait_fixed(2)])(0))
print("and/or", (rp.retry_never() | rp.retry_always())(ValueError()), (rp.retry_never() & rp.retry_always())(ValueError()), (rp.stop_never() | rp.stop_after_attempt(1))(1,0.0), (rp.stop_never() & rp.stop_after_attempt(1))(1,0.0))
