import sys, types
R="/repo/packages"
sys.path[:0]=[__import__("os").path.join(__import__("os").path.dirname(__import__("os").path.abspath(__file__)), "stubs"), f"{R}/llama-index-workflows/src", f"{R}/llama-agents-client/src", f"{R}/llama-agents-core/src"]
import llama_agents
llama_agents.__path__.append(f"{R}/llama-agents-server/src/llama_agents")
m = types.ModuleType("llama_agents.server"); m.__path__=[f"{R}/llama-agents-server/src/llama_agents/server"]
sys.modules["llama_agents.server"]=m
