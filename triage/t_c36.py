"""Triage aid for C36.R1 (not a check): the real SqliteRunLifecycleLock on the real migration schema.

begin_release is a CAS on an existing row; without a prior create(run_id) it matches nothing and returns False, so
DBOSIdleReleaseDecorator._release_idle_handler returns before sending TickIdleRelease.  No code under packages/*/src
calls create() (only tests do), hence a DBOS-backed run is never released.  asyncpg / dbos are not installed: asyncpg is
replaced by an empty stub module for the import only; the DBOS decorator itself is triaged by reading."""
import boot, sys, types, asyncio, sqlite3, tempfile, os, re, ast
sys.modules.setdefault("asyncpg", types.ModuleType("asyncpg")); sys.modules["asyncpg"].Pool = object
R = "/repo/packages/llama-agents-dbos/src/llama_agents/dbos"
for name, path in (("llama_agents.dbos", R), ("llama_agents.dbos.journal", R + "/journal")):
    m = types.ModuleType(name); m.__path__ = [path]; sys.modules[name] = m
from llama_agents.dbos.journal.lifecycle import SqliteRunLifecycleLock

async def main():
    db = os.path.join(tempfile.mkdtemp(), "l.db")
    con = sqlite3.connect(db); con.executescript(open(R + "/_store/sqlite/migrations/0001_init.sql").read()); con.commit(); con.close()
    lock = SqliteRunLifecycleLock(db)
    print("C36.R1 begin_release without create():", await lock.begin_release("run-1"), "| try_begin_resume:", await lock.try_begin_resume("run-1"))
    await lock.create("run-2")
    print("C36.R1 begin_release after create():  ", await lock.begin_release("run-2"))
    callers = []
    for root, _d, files in os.walk("/repo/packages"):
        if "/src/" not in root + "/": continue
        for f in files:
            if f.endswith(".py"):
                src = open(os.path.join(root, f)).read()
                if "lifecycle" in src and re.search(r"\blifecycle\w*\.create\(|_lifecycle\w*\)\.create\(", src): callers.append(os.path.join(root, f))
    print("C36.R1 files under packages/*/src that call <lifecycle>.create(:", callers)
asyncio.run(main())
