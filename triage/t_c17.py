"""C17 triage: real WorkflowClient + httpx.MockTransport serving the server's SSE frame format
(`id: {sequence}\ndata: {payload}\n\n`, payload = EventEnvelopeWithMetadata.model_dump_json()).
Shows (1) baseline: drop + reconnect delivers each event once; (2) a payload containing U+2028 / U+0085
(not escaped by pydantic's JSON writer, a line boundary for httpx.aiter_lines) kills the stream."""
import boot, asyncio, httpx, sys
from workflows.events import Event
from llama_agents.client.client import WorkflowClient
from llama_agents.client.protocol.serializable_events import EventEnvelopeWithMetadata

def frames(events, after):
    out = ""
    for seq, ev in events:
        if seq > after:
            payload = EventEnvelopeWithMetadata.from_event(ev).model_dump_json()
            out += f"id: {seq}\ndata: {payload}\n\n"
    return out

class DropStream(httpx.AsyncByteStream):
    def __init__(self, data, cut): self.data, self.cut = data, cut
    async def __aiter__(self):
        d = self.data if self.cut is None else self.data[: self.cut]
        if d: yield d
        if self.cut is not None:
            raise httpx.ReadError("connection dropped")

async def run(events, cuts):
    calls = []
    def handler(request):
        after = int(request.url.params["after_sequence"])
        body = frames(events, after).encode()
        cut = cuts[len(calls)] if len(calls) < len(cuts) else None
        calls.append(after)
        if not body and cut is None:
            return httpx.Response(204)
        return httpx.Response(200, stream=DropStream(body, cut), headers={"content-type": "text/event-stream"})
    client = WorkflowClient(httpx_client=httpx.AsyncClient(transport=httpx.MockTransport(handler), base_url="http://x"))
    stream = client.get_workflow_events("h", after_sequence=-1)
    got = []
    try:
        async for env in stream:
            got.append((stream.last_sequence, env.value))
    except BaseException as e:
        return got, calls, f"{type(e).__name__}: {str(e)[:90]}"
    return got, calls, None

evs = [(0, Event(msg="a")), (1, Event(msg="b")), (2, Event(msg="c"))]
total = len(frames(evs, -1).encode())
bad = 0
for cut in range(total + 1):
    got, calls, err = asyncio.run(run(evs, [cut]))
    if err or [s for s, _ in got] != [0, 1, 2]:
        bad += 1; print("cut", cut, got, calls, err)
print(f"baseline: single drop at each of {total+1} byte positions -> {bad} bad deliveries")
for ch, nm in [("\u2028", "U+2028"), ("\x85", "U+0085"), ("\u2029", "U+2029"), ("\x1c", "U+001C"), ("\x0b", "U+000B")]:
    evs2 = [(0, Event(msg="a")), (1, Event(msg=f"line one{ch}line two")), (2, Event(msg="c"))]
    got, calls, err = asyncio.run(run(evs2, []))
    print(f"payload with {nm}: delivered sequences {[s for s,_ in got]} error={err}")

# candidate repair on the server side: escape the three separators that JSON leaves raw
_ESC = {0x85: "\\u0085", 0x2028: "\\u2028", 0x2029: "\\u2029"}
_orig_frames = frames
def frames(events, after):  # noqa: F811
    out = ""
    for seq, ev in events:
        if seq > after:
            payload = EventEnvelopeWithMetadata.from_event(ev).model_dump_json().translate(_ESC)
            out += f"id: {seq}\ndata: {payload}\n\n"
    return out
for ch, nm in [("\u2028", "U+2028"), ("\x85", "U+0085"), ("\u2029", "U+2029")]:
    evs2 = [(0, Event(msg="a")), (1, Event(msg=f"line one{ch}line two")), (2, Event(msg="c"))]
    got, calls, err = asyncio.run(run(evs2, []))
    print(f"with server-side escape, payload with {nm}: delivered {[s for s,_ in got]} error={err} text-equal={got[1][1]['_data']['msg'] == f'line one{ch}line two'}")
