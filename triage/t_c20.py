"""Triage aid for C20 (not a check): lost updates in the SQLite state store."""
import boot, asyncio, tempfile, os
from workflows.context.state_store import DictState
from llama_agents.server._store.sqlite.sqlite_workflow_store import SqliteWorkflowStore


async def r1():
    d = tempfile.mkdtemp()
    ws = SqliteWorkflowStore(os.path.join(d, "a.db"))
    s = ws.create_state_store("run")
    await s.set("a", 0)

    async def editor():
        async with s.edit_state() as st:
            await asyncio.sleep(0.1)
            st["b"] = 1

    async def writer():
        await asyncio.sleep(0.02)
        await s.set_state(DictState(a=42))   # completes while the edit block is suspended

    await asyncio.gather(editor(), writer())
    print("C20.R1 one store object, edit_state || set_state: final a =", await s.get("a"),
          "(any serial order gives a=42; 0 means the completed set_state was overwritten)")


async def r2():
    d = tempfile.mkdtemp()
    ws = SqliteWorkflowStore(os.path.join(d, "b.db"))
    s1 = ws.create_state_store("run")   # what step invocation 1 gets
    s2 = ws.create_state_store("run")   # what a concurrent step invocation 2 gets
    print("C20.R2 same object:", s1 is s2, " same lock:", s1._lock is s2._lock)
    await s1.set("n", 0)

    async def incr(s, delay):
        async with s.edit_state() as st:
            n = st["n"]
            await asyncio.sleep(delay)
            st["n"] = n + 1

    await asyncio.gather(incr(s1, 0.05), incr(s2, 0.01))
    print("C20.R2 two edit_state increments through two store objects of one run: n =", await s1.get("n"), "(serial: 2)")


async def r2_engine():
    """Two concurrently running steps of one run, real server runtime on the SQLite store."""
    from workflows import Workflow, step, Context
    from workflows.events import StartEvent, StopEvent, Event
    from workflows.plugins.basic import BasicRuntime
    from llama_agents.server._runtime.server_runtime import ServerRuntimeDecorator
    from llama_agents.server._runtime.persistence_runtime import PersistenceDecorator
    from llama_agents.server._runtime.idle_release_runtime import IdleReleaseDecorator
    from llama_agents.server._service import _WorkflowService

    class Go(Event):
        delay: float = 0.0

    class Done(Event):
        pass

    seen = []

    class W(Workflow):
        @step
        async def fan(self, ctx: Context, ev: StartEvent) -> Go | None:
            await ctx.store.set("n", 0)
            ctx.send_event(Go(delay=0.05))
            ctx.send_event(Go(delay=0.01))
            return None

        @step(num_workers=2)
        async def incr(self, ctx: Context, ev: Go) -> Done:
            seen.append(ctx.store)
            async with ctx.store.edit_state() as st:
                n = st["n"]
                await asyncio.sleep(ev.delay)
                st["n"] = n + 1
            return Done()

        @step
        async def join(self, ctx: Context, ev: Done) -> StopEvent | None:
            got = ctx.collect_events(ev, [Done, Done])
            if got is None:
                return None
            return StopEvent(result=await ctx.store.get("n"))

    d = tempfile.mkdtemp()
    store = SqliteWorkflowStore(os.path.join(d, "c.db"))
    rt = ServerRuntimeDecorator(IdleReleaseDecorator(PersistenceDecorator(BasicRuntime(), store=store), store=store, idle_timeout=60.0), store=store, persistence_backoff=[])
    svc = _WorkflowService(rt, store)
    w = W(timeout=5); w._switch_workflow_name("w"); w._switch_runtime(rt)
    await svc.start()
    hd = await svc.start_workflow(w, "h", StartEvent())
    hd = await svc.await_workflow(hd)
    print("C20.R2 engine: two concurrent step invocations got", len({id(x) for x in seen}), "distinct store objects,",
          len({id(x._lock) for x in seen}), "distinct locks; two increments gave n =", getattr(hd.result, "result", hd.result), "(serial: 2), status", hd.status)
    await svc.stop()


asyncio.run(r1())
asyncio.run(r2())
asyncio.run(r2_engine())
