"""Triage repro for C16.R3 `subscribe-ahead`: a cursor at/after the end of the stored log. Real store code. Not a check."""
import asyncio
import os
import tempfile

import boot  # noqa: F401

from llama_agents.client.protocol.serializable_events import EventEnvelopeWithMetadata
from llama_agents.server._store.memory_workflow_store import MemoryWorkflowStore
from llama_agents.server._store.sqlite.sqlite_workflow_store import SqliteWorkflowStore


def ev(i, stop=False):
    return EventEnvelopeWithMetadata(value={"i": i}, qualified_name=None, type="StopEvent" if stop else "Progress", types=None)


async def scenario(store, stored_first, after, later):
    for i in range(stored_first):
        await store.append_event("r", ev(i))
    got = []

    async def sub():
        async for e in store.subscribe_events("r", after_sequence=after):
            got.append(e.sequence)

    t = asyncio.create_task(sub())
    await asyncio.sleep(0.05)
    for j in range(later):
        await store.append_event("r", ev(stored_first + j, stop=(j == later - 1)))
    await asyncio.wait_for(t, 3)
    return got


async def main():
    for stored_first, after, later in ((0, 0, 3), (2, 3, 4)):
        m = await scenario(MemoryWorkflowStore(), stored_first, after, later)
        s = SqliteWorkflowStore(os.path.join(tempfile.mkdtemp(), "x.db"), poll_interval=0.05)
        q = await scenario(s, stored_first, after, later)
        total = stored_first + later
        print(f"{stored_first} stored, subscribe after_sequence={after}, then {later} appended (sequences 0..{total - 1}): "
              f"memory yields {m}, sqlite yields {q}, statement: {[x for x in range(total) if x > after]}")


asyncio.run(main())
