"""C18.R2 name-complete: on the current tree (walking resolver) a nested Event class still does not round-trip through
JsonSerializer / the client envelope, because get_qualified_name / _get_qualified_name write __name__.  With --patch the
two writers use __qualname__ (in-memory copies; /repo untouched)."""
import boot, sys, importlib.util
W = "/repo/packages/llama-index-workflows/src/workflows"
C = "/repo/packages/llama-agents-client/src/llama_agents/client/protocol/serializable_events.py"
def load_patched(modname, path, edits):
    src = open(path).read()
    for old, new in edits:
        assert old in src, old
        src = src.replace(old, new, 1)
    spec = importlib.util.spec_from_file_location(modname, path)
    mod = importlib.util.module_from_spec(spec); sys.modules[modname] = mod
    exec(compile(src, path, "exec"), mod.__dict__); return mod
import workflows
if "--patch" in sys.argv:
    u = sys.modules["workflows.context.utils"]
    src = open(f"{W}/context/utils.py").read().replace("value.__class__.__name__", "value.__class__.__qualname__")
    ns = {}; exec(compile(src, "utils", "exec"), ns)
    import workflows.context.serializers as S
    S.get_qualified_name = ns["get_qualified_name"]
    import llama_agents.client.protocol
    env = load_patched("llama_agents.client.protocol.serializable_events", C, [('return f"{event.__module__}.{event.__name__}"', 'return f"{event.__module__}.{event.__qualname__}"')])
else:
    import llama_agents.client.protocol.serializable_events as env
from workflows.events import Event
from workflows.context.serializers import JsonSerializer
from pydantic import BaseModel
class Outer:
    class InnerEv(Event):
        x: int = 0
    class Pt(BaseModel):
        x: int = 1
s = JsonSerializer()
for v in (Outer.InnerEv(x=1), {"p": Outer.Pt(x=2)}, Event(a=1)):
    try: b = s.deserialize(s.serialize(v)); print("JsonSerializer", type(v).__qualname__, "->", type(b).__qualname__, b if isinstance(b, dict) else "")
    except Exception as ex: print("JsonSerializer", type(v).__qualname__, "ERR", type(ex).__name__, str(ex)[:80])
e = env.EventEnvelopeWithMetadata.from_event(Outer.InnerEv(x=1)); print("envelope qualified_name:", e.qualified_name)
try: print("  load_event ->", type(e.load_event()).__qualname__)
except Exception as ex: print("  load_event ERR", type(ex).__name__, str(ex)[:80])
e = env.EventEnvelopeWithMetadata.from_event(Event(a=1)); print("top-level qualified_name unchanged:", e.qualified_name, type(e.load_event()).__qualname__)
