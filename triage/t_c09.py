import boot, asyncio
from workflows import Workflow, step, Context
from workflows.events import *
class A(Event): i: int = 0
class B(Event): i: int = 0
class D(Event): pass
outs=[]
class W(Workflow):
    @step
    async def start(self, ctx: Context, ev: StartEvent) -> A | B | None:
        ctx.send_event(A(i=1))
        await asyncio.sleep(0.05)
        ctx.send_event(B(i=1)); ctx.send_event(B(i=2))
        await asyncio.sleep(0.3)
        return None
    @step(num_workers=4)
    async def col(self, ctx: Context, ev: A | B) -> D | None:
        await asyncio.sleep(0.02)
        got = ctx.collect_events(ev, [A, B])
        if got is None: return None
        outs.append([(type(e).__name__, e.i) for e in got])
        return D()
    @step
    async def fin(self, ctx: Context, ev: D) -> StopEvent | None:
        await asyncio.sleep(0.2)
        return StopEvent(result=1)
async def main():
    await W(timeout=3).run()
    print("C09 returned lists:", outs)
asyncio.run(main())
