import boot, asyncio, json
from workflows import Workflow, step, Context
from workflows.events import *
import workflows.retry_policy as rp
from workflows.plugins.basic import BasicRuntime
from llama_agents.server._store.memory_workflow_store import MemoryWorkflowStore
from llama_agents.server._store.abstract_workflow_store import HandlerQuery
from llama_agents.server._runtime.server_runtime import ServerRuntimeDecorator
from llama_agents.server._runtime.persistence_runtime import PersistenceDecorator
from llama_agents.server._runtime.idle_release_runtime import IdleReleaseDecorator
from llama_agents.server._service import _WorkflowService
from workflows.runtime.types.ticks import WorkflowTickAdapter

class A(Event): i: int = 0
class Resp(Event): v: int = 0

def build(store, idle_timeout=60.0):
    rt = ServerRuntimeDecorator(IdleReleaseDecorator(PersistenceDecorator(BasicRuntime(), store=store), store=store, idle_timeout=idle_timeout), store=store, persistence_backoff=[])
    return rt, _WorkflowService(rt, store)

def mk_chain(rt, name="wf"):
    class W(Workflow):
        @step
        async def one(self, ev: StartEvent) -> A:
            return A(i=1)
        @step
        async def two(self, ev: A) -> StopEvent:
            return StopEvent(result="done")
    w = W(timeout=5); w._switch_workflow_name(name); w._switch_runtime(rt); return w

async def c13():
    store = MemoryWorkflowStore(); rt, svc = build(store); w = mk_chain(rt)
    await svc.start()
    hd = await svc.start_workflow(w, "h1", StartEvent())
    hd = await svc.await_workflow(hd)
    ticks = await store.get_ticks(hd.run_id)
    kinds = [t.tick_data["type"] + (":" + t.tick_data.get("step_name","") if t.tick_data["type"]=="step_result" else "") for t in ticks]
    print("C13 full tick log:", kinds, "status", hd.status)
    await svc.stop()
    # crash after each prefix: new store containing prefix, new runtime, resume on start
    for k in range(1, len(ticks)):
        st2 = MemoryWorkflowStore()
        h = (await store.query(HandlerQuery(handler_id_in=["h1"])))[0].model_copy(update={"status":"running","result":None,"completed_at":None})
        await st2.update(h)
        for t in ticks[:k]: await st2.append_tick(hd.run_id, t.tick_data)
        rt2, svc2 = build(st2); w2 = mk_chain(rt2)
        await svc2.start()
        await asyncio.sleep(0.3)
        res = (await st2.query(HandlerQuery(handler_id_in=["h1"])))[0]
        print(f"  crash after tick {k} ({kinds[k-1]}): status={res.status} result={getattr(res.result,'result',None)}")
        await svc2.stop()

async def c15():
    store = MemoryWorkflowStore(); rt, svc = build(store)
    def bad(e): raise RuntimeError("predicate boom")
    class W(Workflow):
        @step(retry_policy=rp.retry_policy(retry=rp.retry_if_exception(bad), wait=rp.wait_fixed(0), stop=rp.stop_after_attempt(3)))
        async def s(self, ev: StartEvent) -> StopEvent:
            raise ValueError("x")
    w = W(timeout=5); w._switch_workflow_name("bad"); w._switch_runtime(rt)
    await svc.start()
    hd = await svc.start_workflow(w, "hb", StartEvent())
    hd = await svc.await_workflow(hd)
    print("C15 engine-side failure -> handler status:", hd.status, hd.error)
    await svc.stop()

async def c14():
    store = MemoryWorkflowStore(); rt, svc = build(store, idle_timeout=0.1)
    n=[0]
    class W(Workflow):
        @step(retry_policy=rp.retry_policy(wait=rp.wait_fixed(0.5), stop=rp.stop_after_attempt(3)))
        async def s(self, ev: StartEvent) -> StopEvent:
            n[0]+=1
            if n[0]<2: raise ValueError("x")
            return StopEvent(result=n[0])
    w = W(timeout=10); w._switch_workflow_name("retry"); w._switch_runtime(rt)
    await svc.start()
    hd = await svc.start_workflow(w, "hr", StartEvent())
    await asyncio.sleep(2.0)
    res = (await store.query(HandlerQuery(handler_id_in=["hr"])))[0]
    print("C14 retry(0.5s) vs idle_timeout(0.1s): after 2s status=", res.status, "idle_since set:", res.idle_since is not None, "attempts run:", n[0])
    await svc.stop()

import logging; logging.disable(logging.CRITICAL)
asyncio.run(c13()); asyncio.run(c15()); asyncio.run(c14())
