import boot, asyncio, tempfile, os, json
from workflows import Workflow, step, Context
from workflows.events import *
from workflows.context.state_store import InMemoryStateStore, DictState
from workflows.resource import Resource, ResourceManager
from typing import Annotated

async def c19():
    s = InMemoryStateStore(DictState())
    await s.set("a", 1)
    snap = await s.get_state()
    snap["a"] = 99
    snap["new"] = 5
    print("C19 store after mutating snapshot:", await s.get("a"), await s.get("new", None))

async def c22():
    made=[]
    async def fac():
        made.append(1); await asyncio.sleep(0.05); return object()
    r = Resource(fac, cache=True)
    rm = ResourceManager()
    res = await asyncio.gather(rm.get(r), rm.get(r), return_exceptions=True)
    print("C22 concurrent cached:", [type(x).__name__ for x in res], "factory calls", len(made))

def c23():
    class MyIn(InputRequiredEvent): pass
    class MyResp(HumanResponseEvent): pass
    class W(Workflow):
        @step
        async def a(self, ev: StartEvent) -> MyIn:
            return MyIn()
        @step
        async def b(self, ev: MyResp) -> StopEvent:
            return StopEvent()
    print("C23 uses_hitl for subclassed HITL events:", W().validate())

async def c24():
    from llama_agents.server._store.memory_workflow_store import MemoryWorkflowStore
    from llama_agents.server._store.abstract_workflow_store import PersistentHandler, HandlerQuery
    st = MemoryWorkflowStore(max_completed=1)
    await st.update(PersistentHandler(handler_id="A", workflow_name="w", status="running", run_id="rA"))
    await st.update_handler_status("rA", status="completed")
    await st.update_handler_status("rA", idle_since=None)   # second terminal upsert of same handler
    print("C24 handlers after A completed (+1 extra terminal update), max_completed=1:", list(st.handlers))

async def c21_c20():
    from llama_agents.server._store.sqlite.sqlite_workflow_store import SqliteWorkflowStore
    d = tempfile.mkdtemp()
    st = SqliteWorkflowStore(os.path.join(d,"x.db"), single_connection=True)
    ss = st.create_state_store("r1")
    try:
        await ss.set("a", 1)
        print("C21 get after set:", await ss.get("a"))
        await st.append_tick("r1", {"x":1})
        print("C21 ticks ok", len(await st.get_ticks("r1")))
    except Exception as e:
        print("C21 single_connection failure:", repr(e))
    st2 = SqliteWorkflowStore(os.path.join(d,"y.db"))
    s2 = st2.create_state_store("r2")
    await s2.set("a", 0)
    async def editor():
        async with s2.edit_state() as st_:
            await asyncio.sleep(0.1)
            st_["b"] = 1
    async def writer():
        await asyncio.sleep(0.02)
        await s2.set_state(DictState(a=42))
    await asyncio.gather(editor(), writer())
    print("C20 sqlite final:", await s2.get("a"), "(serial outcomes: a=42 [edit then set_state: {a:42}] or {a:42,b:1})")

async def c29():
    from llama_agents.core.iter_utils import debounced_sorted_prefix
    bad=0
    for trial in range(200):
        async def src():
            yield 3; yield 1
            await asyncio.sleep(0.02)   # exactly at window
            yield 0
            yield 2
        out=[x async for x in debounced_sorted_prefix(src(), key=lambda x:x, debounce_seconds=0.02, max_window_seconds=0.02)]
        # burst = items buffered; later items must come after the sorted burst
        if out[:2]!=[1,3] and not (out==sorted(out)):
            bad+=1; last=out
    print("C29 anomalous orders:", bad, locals().get('last'))

asyncio.run(c19()); asyncio.run(c22()); c23(); asyncio.run(c24()); asyncio.run(c21_c20()); asyncio.run(c29())
