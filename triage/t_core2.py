import boot, asyncio, time, json, random
from workflows import Workflow, step, Context
from workflows.events import *
import workflows.retry_policy as rp

class A(Event): i: int = 0
class B(Event): i: int = 0
class C(Event): i: int = 0

async def stream(h):
    return [e async for e in h.stream_events(expose_internal=True)]

# C01/C02/C35 fan-out with capacity
async def fanout():
    running={}; maxrun={}; log=[]
    class W(Workflow):
        @step
        async def start(self, ctx: Context, ev: StartEvent) -> A | None:
            for i in range(7): ctx.send_event(A(i=i))
            ctx.send_event(B(i=100), step="only_b")
            return None
        @step(num_workers=2)
        async def work(self, ctx: Context, ev: A) -> B:
            running['work']=running.get('work',0)+1; maxrun['work']=max(maxrun.get('work',0),running['work'])
            await asyncio.sleep(random.random()*0.02)
            running['work']-=1
            log.append(('work',ev.i))
            return B(i=ev.i)
        @step(num_workers=3)
        async def only_b(self, ctx: Context, ev: B) -> C:
            log.append(('only_b',ev.i)); return C(i=ev.i)
        @step(num_workers=1)
        async def also_b(self, ctx: Context, ev: B) -> None:
            log.append(('also_b',ev.i)); return None
        @step(num_workers=4)
        async def fin(self, ctx: Context, ev: C) -> StopEvent | None:
            got = ctx.collect_events(ev, [C]*8)
            if got is None: return None
            return StopEvent(result=sorted(e.i for e in got))
    h = W(timeout=5).run()
    evs = await stream(h)
    r = await h
    from collections import Counter
    print("fanout result", r, "maxrun", maxrun)
    print(" deliveries", Counter(x[0] for x in log), "also_b got 100?", ('also_b',100) in log)
    ssc=[e for e in evs if isinstance(e, StepStateChanged)]
    bal=Counter()
    for e in ssc:
        if e.step_state==StepState.RUNNING: bal[(e.name,e.worker_id)]+=1
        elif e.step_state==StepState.NOT_RUNNING: bal[(e.name,e.worker_id)]-=1
    print(" telemetry imbalance", {k:v for k,v in bal.items() if v}, "unhandled", [e.event_type for e in evs if isinstance(e, UnhandledEvent)])
    print(" names in RUNNING vs NOT_RUNNING input_event_name:", {e.input_event_name for e in ssc if e.step_state==StepState.RUNNING}, {e.input_event_name for e in ssc if e.step_state==StepState.NOT_RUNNING})

# C09 collect under overlap
async def collect():
    outs=[]
    class W(Workflow):
        @step
        async def start(self, ctx: Context, ev: StartEvent) -> None:
            for i in range(3): ctx.send_event(A(i=i)); ctx.send_event(B(i=i))
        @step(num_workers=4)
        async def col(self, ctx: Context, ev: A | B) -> C | None:
            await asyncio.sleep(random.random()*0.01)
            got = ctx.collect_events(ev, [A, B])
            if got is None: return None
            outs.append(tuple((type(e).__name__, e.i) for e in got))
            return C()
        @step
        async def fin(self, ctx: Context, ev: C) -> StopEvent | None:
            g = ctx.collect_events(ev, [C]*3)
            return StopEvent(result=len(g)) if g else None
    try:
        r = await W(timeout=2).run()
    except Exception as e: r=repr(e)
    print("collect", r, outs)

# C30 concurrency limit
async def c30():
    cur=[0]; mx=[0]
    class W(Workflow):
        @step
        async def s(self, ev: StartEvent) -> StopEvent:
            cur[0]+=1; mx[0]=max(mx[0],cur[0]); await asyncio.sleep(0.02); cur[0]-=1
            return StopEvent(result=1)
    w = W(timeout=5, num_concurrent_runs=2)
    await asyncio.gather(*[w.run() for _ in range(6)])
    w2 = W(timeout=5, num_concurrent_runs=2)
    print("C30 max concurrent", mx[0])

# C31 timeout and cancel
async def c31():
    class W(Workflow):
        @step
        async def s(self, ev: StartEvent) -> StopEvent:
            await asyncio.sleep(1); return StopEvent(result=1)
    h = W(timeout=0.1).run()
    evs = await stream(h)
    try: await h
    except Exception as e: print("C31 timeout:", type(e).__name__, [type(x).__name__ for x in evs if not isinstance(x, StepStateChanged)], getattr(evs[-1],'active_steps',None))
    w=W(timeout=5); h = w.run()
    await asyncio.sleep(0.05)
    await h.cancel_run()
    try: await h
    except Exception as e: print("C31 cancel:", type(e).__name__)
    d = h.ctx.to_dict()
    print("  ctx after cancel is_running", d['is_running'], {k:(len(v['in_progress']),len(v['queue'])) for k,v in d['workers'].items()})

# C18 serialization
def c18():
    from workflows.context.serializers import JsonSerializer
    s=JsonSerializer()
    class MyStop(StopEvent):
        x: int = 0
    import __main__; __main__.MyStop = MyStop; MyStop.__module__='__main__'; MyStop.__qualname__='MyStop'
    for ev in [StopEvent(result=0), StopEvent(result=None), StopEvent(result={"a":[1,2]}), A(i=3, extra="e"), StopEvent(result=False), StopEvent(result=""), MyStop(result=5, x=2), WorkflowFailedEvent(step_name="s", exception=KeyError("k"), attempts=1, elapsed_seconds=0.1)]:
        try:
            back = s.deserialize(s.serialize(ev))
            ok = type(back) is type(ev) and back.model_dump()==ev.model_dump() and dict(back.items())==dict(ev.items()) and (not isinstance(ev, StopEvent) or back.result==ev.result)
            print("C18", type(ev).__name__, repr(getattr(ev,'result',None)), "->", ok, (repr(getattr(back,'result',None)), dict(back.items())) if not ok else "")
        except Exception as e:
            print("C18", type(ev).__name__, "ERR", repr(e)[:100])

asyncio.run(fanout()); asyncio.run(collect()); asyncio.run(c30()); asyncio.run(c31()); c18()
