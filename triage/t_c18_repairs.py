"""C18 triage: candidate repairs applied to in-memory copies of events.py / context/utils.py (nothing in /repo is
changed): R6 StopEvent hook delegates to the base hook; R2 resolver walks attributes of a dotted qualname."""
import boot, sys, types, importlib.util, json
W = "/repo/packages/llama-index-workflows/src/workflows"
def load_patched(modname, path, edits):
    src = open(path).read()
    for old, new in edits:
        assert old in src, old
        src = src.replace(old, new, 1)
    spec = importlib.util.spec_from_file_location(modname, path)
    mod = importlib.util.module_from_spec(spec)
    sys.modules[modname] = mod
    exec(compile(src, path, "exec"), mod.__dict__)
    return mod
PATCH = "--orig" not in sys.argv
import workflows.context  # package first (does not import events)
if PATCH:
    load_patched("workflows.context.utils", f"{W}/context/utils.py", [(
'''    except ImportError as e:
        raise ImportError(f"Failed to import module {module_path[0]}: {e}")
''',
'''    except ImportError as e:
        # "pkg.mod.Outer.Inner" names a nested class (written from __qualname__): import the
        # longest importable prefix and resolve the remaining names as attributes
        parts = qualified_name.split(".")
        for i in range(len(parts) - 2, 0, -1):
            try:
                obj = import_module(".".join(parts[:i]))
            except ImportError:
                continue
            try:
                for name in parts[i:]:
                    obj = getattr(obj, name)
                return obj
            except AttributeError:
                break
        raise ImportError(f"Failed to import module {module_path[0]}: {e}")
''')])
    import workflows.context.serializers
    load_patched("workflows.events", f"{W}/events.py", [(
'''        data = handler(self)
        # include _result in serialization for base StopEvent''',
'''        data = super().custom_model_dump(handler)
        # include _result in serialization for base StopEvent''')])
from workflows.events import *
from workflows.context.serializers import JsonSerializer
from workflows.runtime.types.ticks import *
s = JsonSerializer()
class Outer:
    class InnerErr(Exception): pass
    class InnerEv(Event):
        x: int = 0
print("patched" if PATCH else "original")
e = StopEvent(result=1, foo=2); b = s.deserialize(s.serialize(e))
print(" StopEvent(result=1, foo=2) dump:", e.model_dump(mode="json"), "-> back result", b.result, "_data", dict(b._data))
class MyStop(StopEvent):
    y: int = 0
e = MyStop(y=3, foo=2, result=[1]); b = s.deserialize(s.serialize(e)); print(" MyStop back:", type(b).__name__, b.y, b.result, dict(b._data))
e = StopEvent(); print(" empty StopEvent dump:", e.model_dump())
ev = WorkflowFailedEvent(step_name="s", exception=Outer.InnerErr("boom"), attempts=1, elapsed_seconds=0.0)
b = s.deserialize(s.serialize(ev)); print(" nested exception:", type(b.exception).__qualname__, str(b.exception))
E = sys.modules["workflows.events"]
try:
    print(" nested event type:", E._deserialize_event_type(E._serialize_event_type(Outer.InnerEv)).__qualname__)
except Exception as ex: print(" nested event type ERR", type(ex).__name__, str(ex)[:80])
from workflows.context.utils import import_module_from_qualified_name as imp
for q in ["workflows.events.StopEvent", "builtins.KeyError", "nope.Missing", "workflows.events.Missing", "workflows.events.StopEvent.nope", "x", ""]:
    try: print(" resolve", repr(q), "->", imp(q))
    except Exception as ex: print(" resolve", repr(q), "->", type(ex).__name__, str(ex)[:70])
