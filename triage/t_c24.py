"""Triage repro for C24.R2 (three history shapes) on the real MemoryWorkflowStore. Not a check."""
import asyncio
import boot  # noqa: F401  (stub of the one missing dependency)

from llama_agents.server._store.abstract_workflow_store import HandlerQuery, PersistentHandler
from llama_agents.server._store.memory_workflow_store import MemoryWorkflowStore


def h(i, status):
    return PersistentHandler(handler_id=i, workflow_name="w", status=status, run_id="r" + i)


async def main():
    # repeat: second terminal upsert of the only completed handler
    st = MemoryWorkflowStore(max_completed=1)
    await st.update(h("A", "running")); await st.update(h("A", "completed")); await st.update(h("A", "completed"))
    print("repeat  (cap 1, 1 completed):", list(st.handlers), "queue", list(st._terminal_queue))
    # reopen: completed -> running -> completed
    st = MemoryWorkflowStore(max_completed=1)
    await st.update(h("A", "completed")); await st.update(h("A", "running")); await st.update(h("A", "completed"))
    print("reopen  (cap 1, 1 completed):", list(st.handlers), "queue", list(st._terminal_queue))
    # delete: completed, deleted, completed again
    st = MemoryWorkflowStore(max_completed=1)
    await st.update(h("A", "completed")); await st.delete(HandlerQuery(handler_id_in=["A"])); await st.update(h("A", "completed"))
    print("delete  (cap 1, 1 completed):", list(st.handlers), "queue", list(st._terminal_queue))
    # stale entry of another (deleted) handler counts toward the cap (length 4)
    st = MemoryWorkflowStore(max_completed=2)
    await st.update(h("B", "completed")); await st.update(h("A", "completed")); await st.delete(HandlerQuery(handler_id_in=["A"])); await st.update(h("C", "completed"))
    print("stale-other (cap 2, 2 completed B,C):", list(st.handlers), "queue", list(st._terminal_queue))
    # the server path: completion followed by an idle-flag update of the same run
    st = MemoryWorkflowStore(max_completed=1)
    await st.update(h("A", "running")); await st.update_handler_status("rA", status="completed"); await st.update_handler_status("rA", idle_since=None)
    print("status-update path (cap 1):", list(st.handlers))


asyncio.run(main())
