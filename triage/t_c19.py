"""Triage aid for C19 (not a check): sibling divergences between InMemoryStateStore and SqliteStateStore."""
import boot, asyncio, tempfile, os
from pydantic import BaseModel
from workflows.context.state_store import InMemoryStateStore, DictState
from llama_agents.server._store.sqlite.sqlite_workflow_store import SqliteWorkflowStore


class Parent(BaseModel):
    x: int = 0


class Child(Parent):
    y: int = 7


class Other(BaseModel):
    z: int = 1


async def snapshot():
    s = InMemoryStateStore(DictState())
    await s.set("a", 1)
    snap = await s.get_state()
    snap["a"] = 99
    snap["new"] = 5
    print("C19.R2 memory: store after mutating snapshot keys:", await s.get("a"), await s.get("new", None), "(expected 1 None)")
    d = tempfile.mkdtemp()
    q = SqliteWorkflowStore(os.path.join(d, "x.db")).create_state_store("r")
    await q.set("a", 1)
    snap = await q.get_state()
    snap["a"] = 99
    print("C19.R2 sqlite: store after mutating snapshot keys:", await q.get("a"), "(expected 1)")


async def first_set_state():
    d = tempfile.mkdtemp()
    mem = InMemoryStateStore(Child())
    sql = SqliteWorkflowStore(os.path.join(d, "y.db")).create_state_store("r", Child)
    for name, st in (("memory", mem), ("sqlite", sql)):
        try:
            await st.set_state(Parent(x=3))
            got = await st.get_state()
            print(f"C19.R1 {name}: first op set_state(Parent(x=3)) on a Child store ->", type(got).__name__, got.model_dump())
        except Exception as e:
            print(f"C19.R1 {name}: first op set_state(Parent) raised", repr(e))
    mem = InMemoryStateStore(Child())
    sql = SqliteWorkflowStore(os.path.join(d, "z.db")).create_state_store("r", Child)
    for name, st in (("memory", mem), ("sqlite", sql)):
        try:
            await st.set_state(Other())
            got = await st.get_state()
            print(f"C19.R1 {name}: first op set_state(Other()) on a Child store -> accepted,", type(got).__name__)
        except Exception as e:
            print(f"C19.R1 {name}: first op set_state(Other()) raised", type(e).__name__)


asyncio.run(snapshot())
asyncio.run(first_set_state())
