import boot, asyncio
from workflows import Workflow, step, Context
from workflows.events import *
class A(Event): i: int = 0
async def main():
    class W(Workflow):
        @step
        async def start(self, ctx: Context, ev: StartEvent) -> A | None:
            ctx.send_event(A(i=1))
            return None
        @step
        async def work(self, ctx: Context, ev: A) -> StopEvent:
            await asyncio.sleep(0.01)
            return StopEvent(result=1)
    h = W(timeout=5).run()
    evs = [e async for e in h.stream_events(expose_internal=True)]
    print([ (type(e).__name__ + (":"+e.name+":"+e.step_state.value if isinstance(e, StepStateChanged) else "")) for e in evs])
asyncio.run(main())
